"""Contract for eaopack.assets: CHPAsset.setup_optim_problem -- the driver that turns the Contract problem of the plant into the unit-commitment
problem by calling the helpers proved in contracts/chp_helpers.py (C06; without start / shutdown ramp profiles; window not empty).

Every helper is a callee here (its own contract is proved separately); the driver is proved to
  * decide which binaries exist:   start  <=> min runtime > 1 or a start cost != 0 (or start fuel != 0 with a fuel node)
                                   on     <=> start or min downtime > 1 or min capacity != 0 (or running consumption != 0 with a fuel node)
                                   shutdown never (no ramp profiles)
  * build the cost vector          [c0, factor x c0 (heat), running costs on the on flags, start costs on the start flags]   (C06 "start costs charged
                                   exactly at off-to-on transitions": together with C06.startdef.* -- the start flag is 1 exactly there)
  * let a plant with on flags be off (lower bounds 0) and hand minimum / maximum capacity = the Contract's bounds to the capacity rows
  * hand ramp and last dispatch to the ramp rows as volumes per step, using the FIRST step's length (rate x step length on windows with uniform
    steps; on windows whose steps differ in length this is candidate finding D17 -- no clause is claimed for them), convert runtimes / downtimes
    to grid steps
  * call the helpers in the order  dispatch variables (heat) -> binaries -> capacity -> ramp -> start/shutdown definition -> min runtime ->
    min downtime -> heat share (heat) -> fuel (fuel node), each with these quantities
  * costs_only: return exactly that cost vector (C17).
"""
import z3

from pyvc import sym, spec as S
from pyvc.sym import Arr, Mat, Obj, DF, Havoc, lift
from .common import Contract, register

HELPERS = ['_add_dispatch_variables', '_add_bool_variables', '_add_constraints_for_min_and_max_cap', '_add_constraints_for_ramp',
           '_add_constrains_for_start_and_shutdown', '_add_constraints_for_min_runtime', '_add_constraints_for_min_downtime',
           '_add_constraints_for_heat', '_add_fuel_consumption']


class PVal:
    """a parameter of the asset as handed to make_vector (opaque), with its per-step values"""

    def __init__(self, name, fn):
        self.name, self.fn = name, fn


@register
class ChpDriver(Contract):
    qualname = 'assets:CHPAsset.setup_optim_problem'
    prefix = 'C06.driver'
    properties = ('C06', 'C17')

    def cases(self):
        return [dict(heat=h, fuel=f, ramp=r, costs_only=False) for h in (True, False) for f in (True, False) for r in (True, False)] + \
               [dict(heat=True, fuel=True, ramp=True, costs_only=True)]

    def harness(self, H, case):
        n = H.int('T')                  # steps of the window = variables of the Contract problem
        H.assume(n >= 1)
        c0, l0, u0 = (H.real_arr(x, n) for x in ('c0', 'min_cap_dt', 'max_cap_dt'))
        dtf = H.fun('r_dt', z3.IntSort(), z3.RealSort())
        rI = H.int_arr('rI', n)
        R = Obj('Timegrid', T=n, dt=Arr(n, lambda k: dtf(lift(k))), I=rI)
        tg = Obj('Timegrid', restricted=R, freq=H.str('freq'), main_time_unit=H.str('unit'))
        op = Obj('OptimProblem', c=c0, l=l0, u=u0, A=None, b=None, cType=None, mapping=DF(n, Arr(n, lambda k: lift(k)), {'time_step': rI}))
        idx_nodes = {'power': 0, 'heat': 1 if case['heat'] else None, 'fuel': (2 if case['heat'] else 1) if case['fuel'] else None}
        pv = {k: PVal(k, H.fun('p_' + k, z3.IntSort(), z3.RealSort())) for k in ('start_costs', 'running_costs', 'max_share_heat', 'conversion_factor_power_heat',
                                                                                  'start_fuel', 'fuel_efficiency', 'consumption_if_on')}
        q = z3.Int('h!q')
        for k in ('conversion_factor_power_heat', 'fuel_efficiency'):
            H.assume(z3.ForAll([q], pv[k].fn(q) != 0, patterns=[pv[k].fn(q)]))
        self_obj = Obj('CHPAsset', name=H.str('asset_name'), freq=None, timegrid=tg, idx_nodes=idx_nodes, ramp_freq=None,
                       min_runtime=H.real('min_runtime'), time_already_running=H.real('time_already_running'), min_downtime=H.real('min_downtime'),
                       time_already_off=H.real('time_already_off'), start_ramp_time=0, shutdown_ramp_time=0,
                       start_ramp_lower_bounds=None, start_ramp_upper_bounds=None, start_ramp_lower_bounds_heat=None, start_ramp_upper_bounds_heat=None,
                       shutdown_ramp_lower_bounds=None, shutdown_ramp_upper_bounds=None, shutdown_ramp_lower_bounds_heat=None, shutdown_ramp_upper_bounds_heat=None,
                       ramp=H.real('ramp') if case['ramp'] else None, last_dispatch=H.real('last_dispatch'), min_cap=H.real('min_cap_parameter'), **pv)
        # converted runtimes (callee contract of convert_to_timegrid_freq: an integer number of grid steps per attribute)
        conv = {k: H.int('steps_' + k) for k in ('min_runtime', 'time_already_running', 'min_downtime', 'time_already_off')}
        ctx = dict(self_obj=self_obj, op=op, n=n, c0=c0, l0=l0.copy(), u0=u0.copy(), R=R, tg=tg, pv=pv, conv=conv, dtf=dtf, idx_nodes=idx_nodes, H=H,
                   kwargs=dict(prices={'p': H.real_arr('price', n)}, timegrid=None, costs_only=case['costs_only']))
        H.protect[id(c0)] = 'cost vector of the Contract problem'
        return ctx

    def callees(self, case, ctx=None):
        def base(I, self_obj, args, kwargs):
            ctx['base_call'] = dict(kwargs)
            return ctx['c0'] if kwargs.get('costs_only') else ctx['op']

        def conv_freq(I, self_obj, args, kwargs):
            return ctx['conv'][args[1]]

        def conv_unit(I, self_obj, args, kwargs):
            return ctx['H'].real('unit_conversion_factor')

        def make_vector(I, self_obj, args, kwargs):
            v = args[0]
            if not isinstance(v, PVal):
                raise sym.Unsupported('make_vector on a non-parameter')
            ctx.setdefault('mv_calls', []).append((v.name, kwargs.get('convert', False), kwargs.get('default_value')))
            dt = ctx['R'].get('dt')
            if kwargs.get('convert'):
                return Arr(ctx['n'], lambda i, _f=v.fn: _f(lift(i)) * dt.f(i))
            return Arr(ctx['n'], lambda i, _f=v.fn: _f(lift(i)))

        def helper(name):
            def h(I, self_obj, args, kwargs):
                ctx.setdefault('helper_calls', []).append((name, list(args), dict(op_l=args[0].get('l') if isinstance(args[0], Obj) and args[0].has('l') else None)))
                return args[0]
            return h
        d = {'assets:Contract.setup_optim_problem': base, 'assets:Asset.convert_to_timegrid_freq': conv_freq, 'assets:convert_time_unit': conv_unit,
             'assets:Asset.make_vector': make_vector}
        for nm in HELPERS:
            d['assets:CHPAsset.' + nm] = helper(nm)
        return d

    def post(self, H, case, outcome, I, ctx):
        if outcome[0] == 'havoc':
            yield ('C06.driver.modelled', Havoc(outcome[1]))
            return
        if outcome[0] == 'raise':
            # with non-zero conversion factor / efficiency the only refusals are negative capacities of the Contract problem
            i = z3.Int('i')
            yield ('C06.driver.refuses_only_negative_capacities', z3.Exists([i], z3.And(i >= 0, i < ctx['n'], z3.Or(ctx['l0'].f(i) < 0, ctx['u0'].f(i) < 0))))
            return
        n, pv, cv = ctx['n'], ctx['pv'], ctx['conv']
        i = z3.Int('i')
        ex = lambda f: z3.Exists([i], z3.And(i >= 0, i < n, f(i)))
        start = z3.Or(cv['min_runtime'] > 1, ex(lambda k: pv['start_costs'].fn(k) != 0))
        on = z3.Or(start, cv['min_downtime'] > 1, ctx['self_obj'].get('min_cap') != 0)
        if case['fuel']:
            start = z3.Or(start, ex(lambda k: pv['start_fuel'].fn(k) != 0))
            dt = ctx['R'].get('dt')
            on = z3.Or(on, start, ex(lambda k: pv['consumption_if_on'].fn(k) * dt.f(k) != 0))
        res = outcome[1]
        # ---- cost vector
        c = res if case['costs_only'] else (res.get('c') if isinstance(res, Obj) else None)
        ok = isinstance(c, Arr)
        yield ('C06.driver.cost_vector', ok)
        if not ok:
            return
        nd = 2 * n if case['heat'] else n
        dt = ctx['R'].get('dt')
        seg = lambda j: z3.If(j < n, ctx['c0'].f(j), pv['conversion_factor_power_heat'].fn(j - n) * ctx['c0'].f(j - n)) if case['heat'] else ctx['c0'].f(j)
        j = z3.Int('j')
        want_len = nd + z3.If(on, n, 0) + z3.If(start, n, 0)
        pfx = 'C17.costs_only.chp' if case['costs_only'] else 'C06.driver'
        yield (pfx + '.cost_vector_blocks', z3.And(lift(c.n) == want_len, z3.ForAll([j], z3.And(
            z3.Implies(z3.And(j >= 0, j < nd), lift(c.f(j)) == seg(j)),
            z3.Implies(z3.And(on, j >= 0, j < n), lift(c.f(nd + j)) == pv['running_costs'].fn(j) * dt.f(j)),
            z3.Implies(z3.And(start, j >= 0, j < n), lift(c.f(nd + n + j)) == pv['start_costs'].fn(j))))))
        if case['costs_only']:
            return
        # ---- helper calls
        calls = ctx.get('helper_calls', [])
        names = [nm for nm, _, _ in calls]
        want = (['_add_dispatch_variables'] if case['heat'] else []) + HELPERS[1:7] + (['_add_constraints_for_heat'] if case['heat'] else []) + \
            (['_add_fuel_consumption'] if case['fuel'] else [])
        yield ('C06.driver.helpers_called_in_order', names == want)
        if names != want:
            return
        byname = {nm: a for nm, a, _ in calls}
        info = {nm: x for nm, _, x in calls}
        op = ctx['op']
        yield ('C06.driver.same_problem_object_through_all_helpers', all(a[0] is op for _, a, _ in calls) and res is op)
        # flags handed to the helpers are the driver's decisions (Boolean terms: equivalence under the path condition)
        b = byname['_add_bool_variables']
        same = lambda x, f: (x is True and True) if isinstance(x, bool) else None
        tb = lambda x: z3.BoolVal(x) if isinstance(x, bool) else sym.to_bool(x)
        yield ('C06.driver.on_flags_iff_needed', tb(b[1]) == on)
        yield ('C06.driver.start_flags_iff_needed', tb(b[2]) == start)
        yield ('C06.driver.no_shutdown_flags_without_ramp_profiles', tb(b[3]) == z3.BoolVal(False))
        cap = byname['_add_constraints_for_min_and_max_cap']
        k = z3.Int('k')
        okcap = isinstance(cap[1], Arr) and isinstance(cap[2], Arr)
        yield ('C06.driver.capacities_are_the_contracts_bounds', okcap)
        if okcap:
            yield ('C06.driver.capacity_rows_get_min_max_capacity_runtime_and_flags', z3.And(
                z3.ForAll([k], z3.Implies(z3.And(k >= 0, k < n), z3.And(lift(cap[1].f(k)) == ctx['l0'].f(k), lift(cap[2].f(k)) == ctx['u0'].f(k)))),
                lift(cap[3]) == cv['time_already_running'], tb(cap[5]) == on, lift(cap[6]) == 0, lift(cap[9]) == 0))
        # a plant with on flags may be off: lower bounds zero when the binaries are added
        lb = info['_add_bool_variables']['op_l']
        yield ('C06.driver.lower_bounds_zero_when_on_flags_exist', isinstance(lb, Arr) and True)
        if isinstance(lb, Arr):
            yield ('C06.driver.off_is_possible_iff_on_flags', z3.ForAll([k], z3.Implies(z3.And(k >= 0, k < n), lift(lb.f(k)) == z3.If(on, 0, ctx['l0'].f(k)))))
        rp = byname['_add_constraints_for_ramp']
        if case['ramp']:
            yield ('C06.driver.ramp_and_last_dispatch_as_volume_per_step_of_the_first_steps_length', z3.And(
                lift(rp[1]) == ctx['self_obj'].get('ramp') * ctx['dtf'](0), lift(rp[8]) == ctx['self_obj'].get('last_dispatch') * ctx['dtf'](0),
                lift(rp[3]) == cv['time_already_running'], tb(rp[4]) == on, lift(rp[6]) == 0, lift(rp[7]) == 0))
        else:
            yield ('C06.driver.no_ramp_rows_without_ramp', rp[1] is None)
        sd = byname['_add_constrains_for_start_and_shutdown']
        yield ('C06.driver.start_definition_gets_runtime_and_flags', z3.And(lift(sd[1]) == cv['time_already_running'], tb(sd[2]) == start, tb(sd[3]) == z3.BoolVal(False)))
        mr = byname['_add_constraints_for_min_runtime']
        yield ('C06.driver.min_runtime_in_grid_steps', z3.And(lift(mr[1]) == cv['min_runtime'], tb(mr[2]) == start, lift(mr[3]) == cv['time_already_running']))
        md = byname['_add_constraints_for_min_downtime']
        yield ('C06.driver.min_downtime_in_grid_steps', z3.And(lift(md[1]) == cv['min_downtime'], lift(md[2]) == cv['time_already_off']))
        if case['fuel']:
            fu = byname['_add_fuel_consumption']
            okf = all(isinstance(fu[t], Arr) for t in (1, 2, 3, 4))
            yield ('C06.driver.fuel_parameters_per_step', okf)
            if okf:
                yield ('C06.driver.fuel_rows_get_efficiency_running_and_start_consumption', z3.And(z3.ForAll([k], z3.Implies(z3.And(k >= 0, k < n), z3.And(
                    lift(fu[1].f(k)) == pv['fuel_efficiency'].fn(k), lift(fu[2].f(k)) == pv['consumption_if_on'].fn(k) * dt.f(k),
                    lift(fu[3].f(k)) == pv['start_fuel'].fn(k), lift(fu[4].f(k)) == pv['conversion_factor_power_heat'].fn(k)))), tb(fu[5]) == on, tb(fu[6]) == start))
