"""Contract for eaopack.portfolio: Portfolio.setup_optim_problem -- the assembly contract ASM (DESIGN 3.3)
(C07 mapping faithful, C09 name independence, C01 nodal block, C04 accounting basis, C17 costs_only).

Each asset is seen only through its own contract WF_OP (callee contract of `a.setup_optim_problem`): an
abstract problem with n_a variables, optional rows and a mapping whose rows point into [0, n_a).  With
off_a = number of variables of the assets before a (in list order), ASM says

  c, l, u      concatenations in list order;
  mapping      rows of all assets in list order; a row with per-asset index i gets global index off_a + i,
               all other fields unchanged (missing disp_factor filled with 1);
  A, b, cType  the assets' rows in list order, asset a's block in columns [off_a, off_a + n_a), zero elsewhere;
               then the nodal rows returned by create_nodal_restr (C01, its own contract), b = 0, type 'N';
  nothing depends on the *names* of assets other than through equality (C09).

The number of assets is a parameter of the harness (1..3): the list loop is unrolled, so the statement is
proved for every portfolio of up to three assets with symbolic problem sizes (bound stated in the evidence).
"""
import z3

from pyvc import sym, spec as S
from pyvc.sym import Arr, Mat, Obj, DF, Havoc, SymMap, lift
from pyvc.interp import Seg, Family, FnStr
from .common import Contract, register, mk_root_grid, OptimProblemInit


def abstract_asset_problem(H, k, T, with_rows, with_dispf, name):
    """WF_OP for asset k: sizes, vectors, rows, mapping -- all uninterpreted"""
    pf = f'a{k}_'
    n, R = H.int(pf + 'n'), H.int(pf + 'R')
    H.assume(z3.And(n >= 0, R >= 0))
    l, u, c = (H.real_arr(pf + x, n) for x in ('l', 'u', 'c'))
    idx = H.fun(pf + 'idx', z3.IntSort(), z3.IntSort())
    ts = H.fun(pf + 'ts', z3.IntSort(), z3.IntSort())
    nd = H.fun(pf + 'node', z3.IntSort(), sym.Str)
    ty = H.fun(pf + 'type', z3.IntSort(), sym.Str)
    p = z3.Int(pf + 'p')
    H.assume(z3.ForAll([p], z3.Implies(z3.And(p >= 0, p < R), z3.And(idx(p) >= 0, idx(p) < n, ts(p) >= 0, ts(p) < T)), patterns=[idx(p)]))
    cols = {'time_step': Arr(R, lambda q: ts(lift(q))), 'node': Arr(R, lambda q: nd(lift(q))), 'type': Arr(R, lambda q: ty(lift(q))),
            'asset': Arr(R, lambda q: name)}
    F = dict(idx=idx, ts=ts, node=nd, type=ty)
    if with_dispf:
        dfun = H.fun(pf + 'dispf', z3.IntSort(), z3.RealSort())
        cols['disp_factor'] = Arr(R, lambda q: dfun(lift(q)))
        F['dispf'] = dfun
    m = DF(R, Arr(R, lambda q: idx(lift(q))), cols)
    op = Obj('OptimProblem', c=c, l=l, u=u, mapping=m, map_nodal_restr=None, timegrid=None,
             periodic_period_length=None, periodic_duration=None)
    if with_rows:
        mrows = H.int(pf + 'm')
        H.assume(mrows >= 0)
        af = H.fun(pf + 'A', z3.IntSort(), z3.IntSort(), z3.RealSort())
        ctf = H.fun(pf + 'ct', z3.IntSort(), sym.Str)
        op.set('A', Mat(mrows, n, lambda r, cc: af(lift(r), lift(cc))))
        op.set('b', H.real_arr(pf + 'b', mrows))
        op.set('cType', FnStr(mrows, lambda r: ctf(lift(r))))
        F.update(A=af, ct=ctf, m=mrows)
    else:
        op.set('A', None)
        op.set('b', None)
        op.set('cType', None)
        F['m'] = 0
    F.update(n=n, R=R, l=l, u=u, c=c, op=op)
    return F


@register
class PortfolioSetup(Contract):
    qualname = 'portfolio:Portfolio.setup_optim_problem'
    prefix = 'C07.asm'
    properties = ('C07', 'C09', 'C01', 'C04', 'C17', 'C10', 'C08', 'C15', 'C18')

    def cases(self):
        out = [dict(assets=1, rows='1', dispf='0', costs_only=False),
               dict(assets=2, rows='10', dispf='01', costs_only=False),
               dict(assets=2, rows='11', dispf='00', costs_only=False),
               dict(assets=2, rows='00', dispf='11', costs_only=False),
               dict(assets=3, rows='101', dispf='010', costs_only=False),
               dict(assets=2, rows='10', dispf='01', costs_only=True),
               dict(assets=2, rows='10', dispf='01', costs_only=False, fix='mask'),
               dict(assets=3, rows='111', dispf='010', costs_only=False, inner='101')]
        return out

    def harness(self, H, case):
        g = mk_root_grid(H)
        T = g.get('T')
        k = case['assets']
        names = [H.str(f'name{i}') for i in range(k)]
        if k > 1:
            H.assume(z3.Distinct(*names))          # Portfolio.__init__ asserts unique asset names
        assets = []
        Fs = []
        for i in range(k):
            F = abstract_asset_problem(H, i, T, case['rows'][i] == '1', case['dispf'][i] == '1', names[i])
            a = Obj('Asset', name=names[i])
            if case.get('inner', '0' * k)[i] == '1':
                # a structured asset: its problem brings the record of its own (internal) nodal rows along
                F['inner'] = Obj('list', __token__=f'map_nodal_restr of asset {i}')
                F['op'].set('map_nodal_restr', F['inner'])
            a.attrs['__F__'] = F
            assets.append(a)
            Fs.append(F)
        node_names = [H.str('nodeA'), H.str('nodeB')]
        H.assume(node_names[0] != node_names[1])
        nodes = SymMap([(nm, Obj('Node', name=nm)) for nm in node_names])
        self_obj = Obj('Portfolio', assets=assets, asset_names=names, nodes=nodes, timegrid=g)
        prices = {'p': H.real_arr('price', T)}
        ctx = dict(self_obj=self_obj, g=g, Fs=Fs, names=names, node_names=node_names,
                   kwargs=dict(prices=prices, timegrid=None, costs_only=case['costs_only']))
        if case.get('fix'):
            fm = H.fun('fix_mask', z3.IntSort(), z3.BoolSort())
            nx = H.int('len_fix_x')
            fix = {'I': Arr(T, lambda k: fm(lift(k))), 'x': H.real_arr('fix_x', nx)}
            ctx['kwargs']['fix_time_window'] = fix
            ctx.update(fix=fix, fm=fm, nx=nx)
            H.protect[id(fix)] = 'fix_time_window'
            H.protect[id(fix['I'])] = 'fix_time_window[I]'
            H.protect[id(fix['x'])] = 'fix_time_window[x]'
        # nodal block as returned by create_nodal_restr (its own contract): E entries, N rows
        E, N = H.int('nr_E'), H.int('nr_N')
        H.assume(z3.And(E >= 0, N >= 0))
        ctx['nr'] = dict(E=E, N=N, cols=H.int_arr('nr_cols', E), rows=H.int_arr('nr_rows', E), vals=H.real_arr('nr_vals', E),
                         expl=Obj('list', __token__='nodal_restr_map_expl'))
        return ctx

    def callees(self, case, ctx=None):
        def asset_setup(I, self_obj, args, kwargs):
            F = self_obj.get('__F__')
            ctx.setdefault('setup_calls', []).append((self_obj, kwargs))
            if kwargs.get('costs_only'):
                return F['c']
            return F['op']

        def nodal(I, self_obj, args, kwargs):
            ctx['nodal_args'] = args
            nr = ctx['nr']
            return (nr['cols'], nr['rows'], nr['vals'], nr['expl'], nr['N'])
        return {'assets:Asset.setup_optim_problem': asset_setup,
                'portfolio:create_nodal_restr': nodal,
                'optimization:OptimProblem': OptimProblemInit()}

    def post(self, H, case, outcome, I, ctx):
        Fs = ctx['Fs']
        if outcome[0] == 'raise' and case.get('fix'):
            nv_ = sum(F['n'] for F in Fs)
            yield ('C15.refuses_only_too_short_x', ctx['nx'] < nv_)
            return
        if outcome[0] != 'return':
            for nm_ in ('C07.asm.no_raise', 'C01.asm.no_raise', 'C10.asm.no_raise'):
                yield (nm_, False if outcome[0] == 'raise' else Havoc(outcome[1]))
            return
        res = outcome[1]
        # C10: the portfolio object keeps no state between set-ups (it only installs the grid it was given)
        own_writes = sorted({str(what) for (o, what, ln, md) in I.writes if o is ctx['self_obj']})
        yield ('C10.asm.portfolio_object_keeps_no_state_between_set_ups', all(w == 'timegrid' for w in own_writes))
        offs = [0]
        for F in Fs:
            offs.append(offs[-1] + F['n'])
        nv = offs[-1]

        def which(j, pick):
            """value picked from the asset that owns global variable j"""
            out = pick(len(Fs) - 1, j - offs[-2])
            for a in range(len(Fs) - 2, -1, -1):
                out = sym.ite(j < offs[a + 1], pick(a, j - offs[a]), out)
            return out
        j = z3.Int('j')
        jr = z3.And(j >= 0, j < nv)
        if case['costs_only']:
            yield ('C17.costs_only.portfolio.is_vector', isinstance(res, Arr))
            if isinstance(res, Arr):
                yield ('C17.costs_only.portfolio', z3.And(lift(res.n) == nv, z3.ForAll([j], z3.Implies(jr, lift(res.f(j)) == which(j, lambda a, i: Fs[a]['c'].f(i))))))
            return
        c, l, u, A, b, ct, m = (res.get(x) for x in ('c', 'l', 'u', 'A', 'b', 'cType', 'mapping'))
        for nm, x in (('c', c), ('l', l), ('u', u)):
            if isinstance(x, Havoc):
                yield ('C07.asm.vectors', x)
                return
        if case.get('fix'):
            # C15: a variable is pinned to the previous value only if one of its mapping rows lies on a step of the window; every
            # other variable keeps the bounds its asset computed ("all other variables remain free")
            roffs_ = [0]
            for F in Fs:
                roffs_.append(roffs_[-1] + F['R'])
            q = z3.Int('q')

            def in_window(jj):
                alts = []
                for a, F in enumerate(Fs):
                    alts.append(z3.Exists([q], z3.And(q >= 0, q < F['R'], offs[a] + F['idx'](q) == jj, ctx['fm'](F['ts'](q)))))
                return z3.Or(*alts)
            l0 = lambda jj: which(jj, lambda a, i: Fs[a]['l'].f(i))
            u0 = lambda jj: which(jj, lambda a, i: Fs[a]['u'].f(i))
            xj = ctx['fix']['x'].f
            yield ('C15.pin.only_window_variables_are_pinned_to_previous_values', z3.And(lift(l.n) == nv, lift(u.n) == nv, z3.ForAll([j], z3.Implies(jr, z3.Or(
                z3.And(lift(l.f(j)) == l0(j), lift(u.f(j)) == u0(j)),
                z3.And(in_window(j), lift(l.f(j)) == xj(j), lift(u.f(j)) == xj(j)))))))
            yield ('C15.costs_untouched', z3.ForAll([j], z3.Implies(jr, lift(c.f(j)) == which(j, lambda a, i: Fs[a]['c'].f(i)))))
        else:
            yield ('C07.asm.vectors', z3.And(lift(c.n) == nv, lift(l.n) == nv, lift(u.n) == nv, z3.ForAll([j], z3.Implies(jr, z3.And(
                lift(c.f(j)) == which(j, lambda a, i: Fs[a]['c'].f(i)), lift(l.f(j)) == which(j, lambda a, i: Fs[a]['l'].f(i)),
                lift(u.f(j)) == which(j, lambda a, i: Fs[a]['u'].f(i)))))))
        # ---- mapping
        if isinstance(m, Havoc) or not isinstance(m, DF):
            yield ('C07.asm.index', m if isinstance(m, Havoc) else Havoc('mapping not a frame'))
        else:
            roffs = [0]
            for F in Fs:
                roffs.append(roffs[-1] + F['R'])
            Rt = roffs[-1]
            p = z3.Int('p')
            pr = z3.And(p >= 0, p < Rt)

            def rowpick(pick):
                out = pick(len(Fs) - 1, p - roffs[-2])
                for a in range(len(Fs) - 2, -1, -1):
                    out = sym.ite(p < roffs[a + 1], pick(a, p - roffs[a]), out)
                return out
            yield ('C07.asm.mapping.rows', lift(m.n) == Rt)
            yield ('C07.asm.index', z3.ForAll([p], z3.Implies(pr, lift(m.index.f(p)) == rowpick(lambda a, q: offs[a] + Fs[a]['idx'](q)))))
            yield ('C09.keys.index_independent_of_names', z3.ForAll([p], z3.Implies(pr, z3.And(lift(m.index.f(p)) >= 0, lift(m.index.f(p)) < nv))))
            for colname, key in (('time_step', 'ts'), ('node', 'node'), ('type', 'type')):
                yield (f'C07.asm.mapping.{colname}', z3.ForAll([p], z3.Implies(pr, lift(m.cols[colname].f(p)) == rowpick(lambda a, q: Fs[a][key](q)))))
            yield ('C07.asm.mapping.asset', z3.ForAll([p], z3.Implies(pr, lift(m.cols['asset'].f(p)) == rowpick(lambda a, q: ctx['names'][a]))))
            yield ('C07.asm.mapping.index_assets', z3.ForAll([p], z3.Implies(pr, lift(m.cols['index_assets'].f(p)) == rowpick(lambda a, q: Fs[a]['idx'](q)))))
            dfc = m.cols.get('disp_factor')
            yield ('C01.asm.disp_factor', dfc is not None and not isinstance(dfc, Havoc) and z3.ForAll([p], z3.Implies(pr, sym.to_bool(sym.cmpop(
                'Eq', dfc.f(p), rowpick(lambda a, q: Fs[a]['dispf'](q) if 'dispf' in Fs[a] else z3.RealVal(1)))))))
        # ---- rows
        mo = [0]
        for F in Fs:
            mo.append(mo[-1] + F['m'])
        M = mo[-1]
        N = ctx['nr']['N']
        if isinstance(A, Havoc) or isinstance(b, Havoc) or isinstance(ct, Havoc) or A is None:
            yield ('C07.asm.embed', A if isinstance(A, Havoc) else Havoc('rows missing'))
            return
        shp = (A.nr, A.nc) if isinstance(A, Mat) else (A.total(), A.nc)
        yield ('C07.asm.shape', z3.And(lift(shp[0]) == M + N, lift(shp[1]) == nv, lift(b.n if isinstance(b, Arr) else b.total()) == M + N,
                                       lift(S.str_len(ct)) == M + N))
        Af = A.f if isinstance(A, Mat) else None
        if Af is None:
            from pyvc.libmodel import seg_to_mat
            Am = seg_to_mat(I, A)
            Af = Am.f
        bf = b.f if isinstance(b, Arr) else sym.arr_concat(b.segs).f
        r = z3.Int('r')
        for a, F in enumerate(Fs):
            if isinstance(F['m'], int) and F['m'] == 0:
                continue
            rr = z3.And(r >= 0, r < F['m'])
            g_r = mo[a] + r
            inblock = z3.And(j >= offs[a], j < offs[a + 1])
            yield (f'C07.asm.embed/asset{a}', z3.ForAll([r, j], z3.Implies(z3.And(rr, jr), lift(Af(g_r, j)) == z3.If(
                inblock, F['A'](r, j - offs[a]), 0))))
            yield (f'C07.asm.rhs/asset{a}', z3.ForAll([r], z3.Implies(rr, z3.And(lift(bf(g_r)) == F['op'].get('b').f(r),
                                                                              lift(S.char_at(ct, g_r)) == F['ct'](r)))))
        nr = ctx['nr']
        rN = z3.And(r >= 0, r < N)
        e = z3.Int('e')
        coo = lambda rr_, jj: S.psum(lambda ee: sym.ite(z3.And(nr['rows'].f(ee) == rr_, nr['cols'].f(ee) == jj), nr['vals'].f(ee), z3.RealVal(0)),
                                     0, nr['E'], list(I.pc))
        sym.SCOPE.extend([r, j])
        try:
            body = lift(Af(M + r, j)) == coo(r, j)
        finally:
            del sym.SCOPE[-2:]
        yield ('C01.asm.nodal_block', z3.ForAll([r, j], z3.Implies(z3.And(rN, jr), body)))
        yield ('C01.asm.nodal_rhs', z3.ForAll([r], z3.Implies(rN, z3.And(lift(bf(M + r)) == 0, lift(S.char_at(ct, M + r)) == sym.strlit('N')))))
        # C18: the record lists ALL rows of type N in row order: those the assets bring along (asset order), then the
        # portfolio's own (as returned by create_nodal_restr)
        want = [F['inner'] for F in Fs if F.get('inner') is not None] + [nr['expl']]
        got = res.get('map_nodal_restr')
        got_parts = got.get('__parts__') if isinstance(got, Obj) and got.has('__parts__') else [got]
        yield ('C18.rowmap.lists_all_nodal_rows_in_row_order', len(got_parts) == len(want) and all(a is b for a, b in zip(got_parts, want)))
        # the nested function receives the assembled mapping columns and all nodes of the portfolio
        na = ctx.get('nodal_args')
        yield ('C01.asm.nodal_call', na is not None and len(na) == 9 and list(na[0]) == ctx['node_names'] and na[7] is None)
        calls = ctx.get('setup_calls', [])
        yield ('C10.asm.each_asset_once_with_portfolio_grid', len(calls) == len(Fs) and all(
            kw.get('timegrid') is ctx['g'] and kw.get('prices') is ctx['kwargs']['prices'] for (_, kw) in calls))


# ------------------------------------------------------------------------------------ run-time twin
ADVERSARIAL_NAMES = ['1', '11', 'a', 'b', '1a', 'a1', 'x (y', 'x', '0', '10']


def _mk_asset(kind, name, nodes, rng):
    import numpy as np
    import pandas as pd
    import eaopack as eao
    n0, n1 = nodes
    if kind == 'contract1':
        return eao.assets.SimpleContract(name=name, nodes=n0, price='p', min_cap=-1., max_cap=rng.choice([1., 2.]), wacc=rng.choice([0., 0., 0.5, 5.]))
    if kind == 'contract2':
        return eao.assets.SimpleContract(name=name, nodes=n0, price='q', min_cap=-1., max_cap=1., extra_costs=rng.choice([0.5, 1.]), wacc=rng.choice([0., 2., 9.]))
    if kind == 'transport':
        return eao.assets.Transport(name=name, nodes=[n0, n1], min_cap=0., max_cap=1., efficiency=0.9, costs_const=0.1, wacc=rng.choice([0., 3.]))
    if kind == 'storage':
        return eao.assets.Storage(name=name, nodes=n1, size=2., cap_in=1., cap_out=1., eff_in=rng.choice([1., 0.9]), price=None)
    if kind == 'orderbook_out':
        # one order inside the horizon and one completely outside (a variable without any mapping row)
        t0 = pd.Timestamp(2021, 1, 1)
        orders = {'start': [t0 - pd.Timedelta(5, 'd'), t0 + pd.Timedelta(1, 'h')], 'end': [t0 - pd.Timedelta(4, 'd'), t0 + pd.Timedelta(3, 'h')],
                  'capa': [1., 1.], 'price': [1., -5.]}
        if rng.random() < .5:
            # the outside order (after the horizon) as the LAST one: the book's last variable has no mapping row
            orders = {'start': [t0 + pd.Timedelta(1, 'h'), t0 + pd.Timedelta(9, 'd')], 'end': [t0 + pd.Timedelta(3, 'h'), t0 + pd.Timedelta(10, 'd')],
                      'capa': [1., 2.], 'price': [-5., 1.]}
        return eao.assets.OrderBook(name=name, nodes=n0, orders=orders)
    if kind == 'orderbook_all_out':
        # every order outside the horizon: variables (one per order) without any mapping row at all
        t0 = pd.Timestamp(2021, 1, 1)
        orders = {'start': [t0 - pd.Timedelta(5, 'd'), t0 + pd.Timedelta(9, 'd')], 'end': [t0 - pd.Timedelta(4, 'd'), t0 + pd.Timedelta(10, 'd')],
                  'capa': [1., 2.], 'price': [1., -5.]}
        return eao.assets.OrderBook(name=name, nodes=n0, orders=orders)
    if kind == 'early_contract':
        t0 = pd.Timestamp(2021, 1, 1)
        return eao.assets.SimpleContract(name=name, nodes=n1, price='q', min_cap=-1., max_cap=1., end=t0 + pd.Timedelta(1, 'h'))
    if kind == 'late_contract':
        t0 = pd.Timestamp(2021, 1, 1)
        return eao.assets.SimpleContract(name=name, nodes=n1, price='p', min_cap=-1., max_cap=1., start=t0 + pd.Timedelta(rng.choice([2, 3]), 'h'))
    raise ValueError(kind)


def _pf_schema(self, case):
    return [('seed', 'int', None)]


def _pf_sample(self, case, rng):
    from pyvc import native as N
    return N.Params(seed=rng.randint(0, 10 ** 6))


def _pf_native(self, case, P):
    if case.get('fix'):
        from pyvc import native as N_
        raise N_.NotRealisable('fix_time_window is covered by the bounded scenario check_fix_window')
    import copy
    import random
    import numpy as np
    import eaopack as eao
    from pyvc import native as N
    rng = random.Random(int(P['seed']))
    T = rng.randint(2, 6)
    tg, _ = N.synthetic_grid(T, None)
    k = case['assets']
    kinds = [rng.choice(['contract1', 'contract2', 'transport', 'storage', 'orderbook_out', 'late_contract', 'early_contract', 'late_contract', 'orderbook_all_out']) for _ in range(k)]
    if k > 1 and int(P['seed']) % 5 == 0:
        kinds[rng.randrange(k - 1)] = 'orderbook_all_out'       # (not in the last place: the assets after it must still sit on their own variables)
    names = rng.sample(ADVERSARIAL_NAMES, k)
    n0, n1 = eao.assets.Node('N0'), eao.assets.Node('N1')
    assets = [_mk_asset(kd, nm, (n0, n1), rng) for kd, nm in zip(kinds, names)]
    prices = {'p': np.arange(T) + 1., 'q': 10. - np.arange(T)}
    pf = eao.portfolio.Portfolio(assets)
    co = case['costs_only']
    call = lambda: pf.setup_optim_problem(prices, tg, costs_only=co)
    # reference: every asset's own problem from a fresh copy on a fresh grid
    ops = []
    for a in assets:
        tg2, _ = N.synthetic_grid(T, None)
        ops.append(copy.deepcopy(a).setup_optim_problem(prices, tg2, costs_only=False))
    return call, dict(native=True, ops=ops, names=names, kinds=kinds, T=T, costs_only=co)


def _pf_native_post(ctx, outcome):
    import numpy as np
    ops, names = ctx['ops'], ctx['names']
    if outcome[0] != 'return':
        yield ('C07.asm.no_raise', False)
        return
    res = outcome[1].get('__real__') if hasattr(outcome[1], 'get') and not isinstance(outcome[1], Arr) else None
    cs = np.concatenate([np.asarray(o.c, dtype=float) for o in ops]) if ops else np.zeros(0)
    if ctx['costs_only']:
        vec = outcome[1]
        ok = isinstance(vec, Arr) and vec.n == len(cs) and all(abs(vec.f(i) - cs[i]) < 1e-9 for i in range(len(cs)))
        yield ('C17.costs_only.portfolio', ok)
        return
    op = res
    ls = np.concatenate([np.asarray(o.l, dtype=float) for o in ops])
    us = np.concatenate([np.asarray(o.u, dtype=float) for o in ops])
    okv = len(op.c) == len(cs) and np.allclose(op.c, cs, rtol=1e-9, atol=1e-12) and np.allclose(op.l, ls) and np.allclose(op.u, us)
    yield ('C07.asm.vectors', okv)
    yield ('C10.asm.each_block_equals_the_assets_standalone_problem', okv)
    yield ('C09.order.each_block_equals_the_assets_standalone_problem', okv)
    offs = np.cumsum([0] + [len(o.l) for o in ops])
    exp_idx, exp_asset, exp_ts = [], [], []
    for a, o in enumerate(ops):
        if o.mapping is None or len(o.mapping) == 0:
            continue
        exp_idx += [int(offs[a] + i) for i in o.mapping.index]
        exp_asset += [names[a]] * len(o.mapping)
        exp_ts += [int(t) for t in o.mapping['time_step']]
    m = op.mapping
    yield ('C07.asm.index', [int(i) for i in m.index] == exp_idx)
    yield ('C07.asm.mapping.asset', list(m['asset']) == exp_asset if len(m) else exp_asset == [])
    yield ('C07.asm.mapping.time_step', [int(t) for t in m['time_step']] == exp_ts if len(m) else exp_ts == [])
    # rows: block embedding
    nv = len(cs)
    A = op.A.toarray() if op.A is not None else np.zeros((0, nv))
    r0 = 0
    ok = True
    for a, o in enumerate(ops):
        if o.A is None:
            continue
        Aa = o.A.toarray()
        blk = np.zeros((Aa.shape[0], nv))
        blk[:, offs[a]:offs[a] + Aa.shape[1]] = Aa
        ok = ok and A[r0:r0 + Aa.shape[0]].shape == blk.shape and np.allclose(A[r0:r0 + Aa.shape[0]], blk) and \
            np.allclose(op.b[r0:r0 + Aa.shape[0]], o.b) and op.cType[r0:r0 + Aa.shape[0]] == o.cType
        r0 += Aa.shape[0]
    yield ('C07.asm.embed', bool(ok))
    # a variable without mapping row is inert: zero cost, zero column
    mapped = set(int(i) for i in m.index)
    inert = all((j in mapped) or (abs(op.c[j]) < 1e-12 and not np.any(A[:, j])) for j in range(nv))
    yield ('C07.asm.unmapped_inert', bool(inert))
    # nodal rows: exactly one per (node, step) with dispatch, summing the factors of the d rows there
    N = len(op.map_nodal_restr)
    okN = (A.shape[0] == r0 + N) and op.cType[r0:] == 'N' * N and np.allclose(op.b[r0:], 0)
    seen = set()
    dfac = m['disp_factor'] if 'disp_factor' in m.columns else None
    for k, (t, n) in enumerate(op.map_nodal_restr):
        seen.add((int(t), n))
        row = np.zeros(nv)
        sel = (m['type'] == 'd') & (m['node'] == n) & (m['time_step'] == t)
        for i, f in zip(m.index[sel], (dfac[sel] if dfac is not None else [1.] * int(sel.sum()))):
            row[int(i)] += float(f)
        okN = okN and np.allclose(A[r0 + k], row)
    want = set((int(t), n) for t, n, ty in zip(m['time_step'], m['node'], m['type']) if ty == 'd') if len(m) else set()
    yield ('C01.asm.nodal_block', bool(okN) and seen == want and len(seen) == N)


PortfolioSetup.schema = _pf_schema
PortfolioSetup.sample = _pf_sample
PortfolioSetup.native = _pf_native
_pf_sym_post = PortfolioSetup.post


def _pf_post(self, H, case, outcome, I, ctx):
    if I is None and ctx.get('native'):
        yield from _pf_native_post(ctx, outcome)
    else:
        yield from _pf_sym_post(self, H, case, outcome, I, ctx)


PortfolioSetup.post = _pf_post


@register
class PortfolioInit(Contract):
    """Portfolio.__init__ (C09 "uniqueness check on asset names"; establishes the precondition of the assembly contract): refuses exactly the asset
    lists in which two assets carry the same name -- whatever the names are (numeric, prefixes of each other: names are only compared for equality);
    records the names in the order given and every node once, under its name, the first asset's node object winning.  Harness: three assets with
    one or two nodes each; names of assets and nodes arbitrary (equal or not)."""
    qualname = 'portfolio:Portfolio.__init__'
    prefix = 'C09.init'
    properties = ('C09', 'C07')

    def harness(self, H, case):
        names = [H.str(f'name{i}') for i in range(3)]
        nn = [H.str(f'node_name{i}') for i in range(4)]
        nodes = [Obj('Node', name=x) for x in nn]
        assets = [Obj('Asset', name=names[0], nodes=[nodes[0]]), Obj('Asset', name=names[1], nodes=[nodes[1], nodes[2]]), Obj('Asset', name=names[2], nodes=[nodes[3]])]
        for a in assets:
            a.attrs['__isinstance__'] = ('Asset',)
        self_obj = Obj('Portfolio')
        return dict(self_obj=self_obj, args=[assets], assets=assets, names=names, nn=nn, nodes=nodes)

    def post(self, H, case, outcome, I, ctx):
        names, nn, nodes = ctx['names'], ctx['nn'], ctx['nodes']
        clash = z3.Or(names[0] == names[1], names[0] == names[2], names[1] == names[2])
        if outcome[0] == 'raise':
            yield ('C09.init.refuses_only_equal_asset_names', z3.And(outcome[1] == 'AssertionError', clash) if isinstance(outcome[1], str) else Havoc('raise'))
            return
        if outcome[0] != 'return':
            yield ('C09.init.modelled', Havoc(outcome[1]))
            return
        so = ctx['self_obj']
        yield ('C09.init.accepts_only_pairwise_distinct_asset_names', z3.Not(clash))
        yield ('C09.init.keeps_assets_and_names_in_the_given_order', so.get('assets') is ctx['assets'] and list(so.get('asset_names')) == names)
        nd = so.get('nodes')
        ok = isinstance(nd, SymMap)
        yield ('C09.init.nodes_by_name', ok)
        if ok:
            items = list(nd.items)
            # every recorded pair is (name of a node of some asset, that node object); recorded names are pairwise different; every node's name is recorded
            yield ('C09.init.recorded_nodes_are_the_assets_nodes_under_their_own_names', all(any(k is nn[j] and v is nodes[j] for j in range(4)) for k, v in items))
            ks = [k for k, _ in items]
            yield ('C09.init.every_node_name_recorded_once', z3.And(*[z3.Or(*[nn[i] == k for k in ks]) for i in range(4)],
                                                                     *[ks[i] != ks[j] for i in range(len(ks)) for j in range(i)]) if ks else False)
            # the first asset's node object wins: a recorded pair is the first node in list order with that name
            firsts = []
            for k, v in items:
                j = next(j for j in range(4) if nn[j] is k)
                firsts.append(z3.And(*[nn[i] != k for i in range(j)]) if j else z3.BoolVal(True))
            yield ('C09.init.first_node_object_with_a_name_wins', z3.And(*firsts) if firsts else False)


def got_is(got, node):
    """`got` (an ite chain over node objects is not representable: lookup returns the object when the path condition decides it) is `node`"""
    return z3.BoolVal(got is node)
