"""Contract for eaopack.assets: OrderBook.setup_optim_problem  (C20, C07, C08, C01, C17).

LP_OrderBook, from the property statement C20: one execution variable x_o in [0,1] per order
(boolean when full execution is enforced); with cover(o) = {k : start_o <= t_k < end_o} over the
steps of the horizon the order book delivers  sum_o x_o * capa_o * dt_k  at step k  (one dispatch
row per (o, k in cover(o)) with factor capa_o*dt_k) and pays  x_o * capa_o * price_o *
sum_{k in cover(o)} dt_k * df_k.  An order with empty cover has zero cost and no row.
"""
import z3

from pyvc import sym, spec as S
from pyvc.sym import Arr, Obj, DF, Havoc, TS, lift
from pyvc.interp import Seg, Family
from .common import (Contract, register, mk_root_grid, mk_restricted, disc_fun, set_timegrid_handler, mk_node,
                     OptimProblemInit)


@register
class OrderBookSetup(Contract):
    qualname = 'assets:OrderBook.setup_optim_problem'
    prefix = 'C20.orderbook'
    properties = ('C20', 'C07', 'C08', 'C01', 'C17', 'C10')
    inline = ('assets:Asset.node_names',)

    def cases(self):
        return [dict(full=f, costs_only=co, tg=tg) for f in (False, True) for co in (False, True)
                for tg in ('given', 'preset', 'same') if not (tg != 'given' and (co or f))]

    def harness(self, H, case):
        g = mk_root_grid(H)
        df = disc_fun(H)
        R = mk_restricted(H, g, df=df)
        node = mk_node(H, 'node0')
        nO = H.int('n_orders')
        H.assume(nO >= 0)
        sf, ef = H.fun('o_start', z3.IntSort(), z3.IntSort()), H.fun('o_end', z3.IntSort(), z3.IntSort())
        cf, pf = H.fun('o_capa', z3.IntSort(), z3.RealSort()), H.fun('o_price', z3.IntSort(), z3.RealSort())
        tz = g.get('tz')
        orders = {'start': Arr(nO, lambda o: TS(sf(lift(o)), tz)), 'end': Arr(nO, lambda o: TS(ef(lift(o)), tz)),
                  'capa': Arr(nO, lambda o: cf(lift(o))), 'price': Arr(nO, lambda o: pf(lift(o)))}
        self_obj = Obj('OrderBook', name=H.str('asset_name'), nodes=[node], wacc=H.real('wacc'), start=None, end=None,
                       freq=None, profile=None, orders=orders, full_exec=case['full'])
        ctx = dict(g=g, R=R, df=df, self_obj=self_obj, nO=nO, sf=sf, ef=ef, cf=cf, pf=pf)
        if case['tg'] == 'preset':
            # the grid was set before (set_timegrid) and is NOT passed again; meanwhile ANOTHER asset sharing the grid object has
            # overwritten its derived cache (other window, other wacc): the set-up derives the asset's own part anew (C10; defect D42 of
            # the pinned tree: the stale cache was used)
            self_obj.set('timegrid', g)
            pdf = disc_fun(H, 'stale')
            g.set('restricted', mk_restricted(H, g, pfx='stale', df=pdf))
            g.set('discount_factors', Arr(g.get('T'), lambda k: pdf(lift(k))))
            tg_arg = None
        elif case['tg'] == 'same':
            # the asset already holds this very grid object, whose derived cache was overwritten by ANOTHER asset since
            # (other window, other wacc): the set-up has to rebuild it all the same (C10 / C20: no short cut on identity)
            self_obj.set('timegrid', g)
            sdf = disc_fun(H, 'stale')
            g.set('restricted', mk_restricted(H, g, pfx='stale', df=sdf))
            g.set('discount_factors', Arr(g.get('T'), lambda k: sdf(lift(k))))
            tg_arg = g
        else:
            g.set('restricted', Havoc('stale cache: restricted grid of an earlier set-up'))
            g.set('discount_factors', Havoc('stale cache: discount factors of an earlier set-up'))
            tg_arg = g
        ctx['args'] = [None, tg_arg, case['costs_only']]
        H.protect[id(orders)] = 'orders'
        for k, a in orders.items():
            H.protect[id(a)] = f'orders[{k}]'
        return ctx

    def callees(self, case, ctx=None):
        return {'assets:Asset.set_timegrid': set_timegrid_handler(ctx),
                'optimization:OptimProblem': OptimProblemInit()}

    def ref(self, case, ctx):
        R = ctx['R']
        n = R.get('T')
        dt, dfR, rI, tp = R.get('dt'), R.get('discount_factors'), R.get('I'), R.get('timepoints')
        tpt = (lambda k: tp.f(k).t) if not isinstance(tp, list) else (lambda k: tp[int(k)])
        cover = lambda o, k: S.and_(S.ge(tpt(k), ctx['sf'](o)), S.lt(tpt(k), ctx['ef'](o)))
        return n, dt, dfR, rI, cover

    def post(self, H, case, outcome, I, ctx):
        n, dt, dfR, rI, cover = self.ref(case, ctx)
        nO = ctx['nO']
        T = ctx['g'].get('T')
        pc = list(I.pc) if I is not None else None
        if outcome[0] == 'raise':
            yield ('C08.orderbook.no_spurious_raise', False)
            return
        if outcome[0] == 'havoc':
            yield ('C20.orderbook.modelled', Havoc(outcome[1]))
            return
        res = outcome[1]
        if case['costs_only']:
            yield ('C17.costs_only.orderbook.is_vector', isinstance(res, Arr))
            if not isinstance(res, Arr):
                return
        c = res if case['costs_only'] else res.get('c')
        if isinstance(c, Havoc):
            yield ('C20.orderbook.cost', c)
            return
        yield ('C07.orderbook.lengths', S.eq(c.n, nO))
        covered = lambda o: S.psum(lambda k: S.ite(cover(o, k), dt.f(k) * dfR.f(k), 0.0), 0, n, pc)
        yield ('C17.costs_only.orderbook.equals_full_cost' if case['costs_only'] else 'C20.orderbook.cost', S.forall(nO, lambda o: S.eq(c.f(o), ctx['cf'](o) * covered(o) * ctx['pf'](o))))
        if case['costs_only']:
            return
        l, u, m = res.get('l'), res.get('u'), res.get('mapping')
        yield ('C20.orderbook.bounds', S.and_(S.eq(l.n, nO), S.eq(u.n, nO), S.forall(nO, lambda o: S.and_(S.eq(l.f(o), 0), S.eq(u.f(o), 1)))))
        yield ('C07.orderbook.no_rows', res.get('A') is None and res.get('b') is None and res.get('cType') is None)
        so = ctx['self_obj']
        node = so.get('nodes')[0].get('name')
        if isinstance(m, Havoc):
            yield ('C20.orderbook.rows', m)
            return
        want_cols = {'time_step', 'var_name', 'disp_factor', 'asset', 'type', 'node'} | ({'bool'} if case['full'] else set())
        if isinstance(m, DF):
            # ---- run-time twin: the real frame; set-based reading of "one row per (o, k in cover(o))"
            cols = m.cols
            yield ('C20.orderbook.rows.columns', set(cols) == want_cols or (m.n == 0))
            rows = range(int(m.n or 0))
            ok_rows = True
            for p in rows:
                o = cols['var_name'].f(p) if 'var_name' in cols else None
                ts = cols['time_step'].f(p)
                ks = [k for k in range(int(n)) if rI.f(k) == ts]
                good = (len(ks) == 1 and isinstance(o, int) and 0 <= o < int(nO) and m.index.f(p) == o and cover(o, ks[0])
                        and S.eq(cols['disp_factor'].f(p), ctx['cf'](o) * dt.f(ks[0])) and cols['type'].f(p) == 'd'
                        and cols['node'].f(p) == node and cols['asset'].f(p) == so.get('name')
                        and (not case['full'] or cols['bool'].f(p) is True))
                ok_rows = ok_rows and bool(good)
            yield ('C20.orderbook.rows.each_row_is_a_covered_step', ok_rows)
            cnt_ok = True
            for o in range(int(nO)):
                for k in range(int(n)):
                    cnt = sum(1 for p in rows if m.index.f(p) == o and cols['time_step'].f(p) == rI.f(k))
                    cnt_ok = cnt_ok and (cnt == (1 if cover(o, k) else 0))
            yield ('C20.orderbook.rows.every_covered_step_has_one_row', cnt_ok)
            yield ('C08.orderbook.window', all(0 <= cols['time_step'].f(p) < int(T) for p in rows))
            return
        # ---- symbolic: the mapping is a sequence built in the order loop
        fams = [sg for sg in m.segs if isinstance(sg, Family)] if isinstance(m, Seg) else []
        expl = [sg for sg in m.segs if not isinstance(sg, Family)] if isinstance(m, Seg) else []
        yield ('C20.orderbook.rows.structure', isinstance(m, Seg) and m.kind == 'df' and len(fams) == 1 and len(fams[0].vars) == 1
               and all(S.concrete_int(e.n) == 0 for e in expl))
        if not (isinstance(m, Seg) and len(fams) == 1 and len(fams[0].vars) == 1):
            return
        fam = fams[0]
        k = fam.vars[0]
        item = fam.item
        yield ('C20.orderbook.rows.one_block_per_order', z3.ForAll([k], fam.dom == z3.And(k >= 0, k < nO)))
        yield ('C20.orderbook.rows.columns', set(item.cols) == want_cols)
        # rows of order k: the covered steps in increasing order (selection functions of the cover mask)
        sym.SCOPE.append(k)
        try:
            mask = Arr(n, lambda j: cover(k, j))
            cnt, sel, rank = sym.COMP.get(mask)
        finally:
            sym.SCOPE.pop()
        dom = z3.And(k >= 0, k < nO)
        p = z3.Int('p')
        inrow = z3.And(dom, p >= 0, p < lift(item.n))
        col = lambda name: item.cols[name]
        yield ('C20.orderbook.rows.count', z3.ForAll([k], z3.Implies(dom, lift(item.n) == cnt)))
        yield ('C20.orderbook.rows.index', z3.ForAll([k, p], z3.Implies(inrow, lift(item.index.f(p)) == k)))
        yield ('C20.orderbook.rows.step', z3.ForAll([k, p], z3.Implies(inrow, lift(col('time_step').f(p)) == rI.f(sel(p)))))
        yield ('C20.orderbook.rows.factor', z3.ForAll([k, p], z3.Implies(inrow, lift(col('disp_factor').f(p)) == ctx['cf'](k) * dt.f(sel(p)))))
        yield ('C20.orderbook.rows.var_name', z3.ForAll([k, p], z3.Implies(inrow, lift(col('var_name').f(p)) == k)))
        yield ('C20.orderbook.rows.type', z3.ForAll([k, p], z3.Implies(inrow, lift(col('type').f(p)) == sym.strlit('d'))))
        yield ('C01.nodes.orderbook', z3.ForAll([k, p], z3.Implies(inrow, lift(col('node').f(p)) == node)))
        yield ('C07.orderbook.rows.asset', z3.ForAll([k, p], z3.Implies(inrow, lift(col('asset').f(p)) == so.get('name'))))
        if case['full']:
            yield ('C20.orderbook.bool', z3.ForAll([k, p], z3.Implies(inrow, sym.to_bool(col('bool').f(p)))))
        yield ('C08.orderbook.window', z3.ForAll([k, p], z3.Implies(inrow, z3.And(lift(col('time_step').f(p)) >= 0,
                                                                                 lift(col('time_step').f(p)) < T))))

    # ------------------------------------------------------------------ run-time twin / replay
    def schema(self, case):
        return [('g_T', 'int', None), ('r_n', 'int', None), ('n_orders', 'int', None), ('wacc', 'real', None),
                ('g_dt', 'real_fun', 'g_T'), ('g_df', 'real_fun', 'g_T'), ('g_tp', 'int_fun', 'g_T'), ('r_I', 'int_fun', 'r_n'),
                ('o_start', 'int_fun', 'n_orders'), ('o_end', 'int_fun', 'n_orders'),
                ('o_capa', 'real_fun', 'n_orders'), ('o_price', 'real_fun', 'n_orders')]

    size_syms = ('g_T', 'r_n', 'n_orders')

    def menu(self, case, H, ctx):
        rI = ctx['R'].get('__fun__')['I']
        tpf = ctx['g'].get('__fun__')['tp']
        k = z3.Int('menu!k')
        g = ctx['g']
        hard = [z3.ForAll([k], z3.Implies(z3.And(k >= 0, k < ctx['R'].get('T')), rI(k) == k)), ctx['R'].get('T') == g.get('T'),
                g.get('T') >= 1]
        soft = [H.real('wacc') == 0, z3.ForAll([k], ctx['df'](k) == 1),
                z3.ForAll([k], z3.Implies(z3.And(k >= 0, k < g.get('T')), z3.And(tpf(k) == 10 * k, ctx['g'].get('__fun__')['dt'](k) == 1)))]
        return hard, soft

    def sample(self, case, rng):
        """random small instance: grid of 1..4 steps (60 % non-uniform), orders starting / ending on grid points,
        between them, before and after the horizon"""
        from pyvc import native as N
        T = rng.randint(1, 4)
        nO = rng.randint(0, 3)
        inst = [-5] + [v for k in range(T + 1) for v in (10 * k, 10 * k + 5)]
        P = N.Params(g_T=T, r_n=T, n_orders=nO, wacc=rng.choice([0.0, 0.0, 0.5]), r_I=list(range(T)), g_tp=[10 * k for k in range(T)],
                     g_dt=[rng.choice(N.POS) for _ in range(T)] if rng.random() < 0.6 else [1.0] * T, g_df=[1.0] * T)
        st = [rng.choice(inst) for _ in range(nO)]
        P['o_start'] = st
        P['o_end'] = [rng.choice([v for v in inst if v >= s0] or [s0]) for s0 in st]
        P['o_capa'] = [rng.choice([-2.0, -1.0, 0.5, 1.0, 3.0]) for _ in range(nO)]
        P['o_price'] = [rng.choice([-1.0, 0.0, 1.0, 2.5]) for _ in range(nO)]
        return P

    def native(self, case, P):
        import numpy as np
        import pandas as pd
        import eaopack as eao
        from pyvc import native as N
        T, n, nO = int(P['g_T']), int(P['r_n']), int(P['n_orders'])
        P = N.realisable_wacc(P)
        if n != T or [int(x) for x in P['r_I']] != list(range(T)):
            raise N.NotRealisable('order book has no window of its own (restricted grid = full grid)')
        tg, synthetic = N.synthetic_grid(T, P['g_dt'])
        tps = [int(x) for x in P['g_tp']]
        # map the model's abstract instants piecewise linearly onto the real time points
        pts = list(tg.timepoints) + [tg.end]

        def real_time(v):
            # position of instant v relative to the model's grid points -> same position on the real grid
            if T == 0:
                return pts[0]
            if v <= tps[0]:
                return pts[0] - pd.Timedelta(1, 'h') * (1 + (tps[0] - v)) if v < tps[0] else pts[0]
            for k in range(T - 1):
                if tps[k] < v <= tps[k + 1]:
                    return pts[k + 1] if v == tps[k + 1] else pts[k] + (pts[k + 1] - pts[k]) / 2
            # beyond the last grid point: inside the last step, exactly on the grid end (one model step = 10 instants
            # further), or after the end -- the function only compares with grid points, so all three are the same
            # abstract situation; the real-time twin exercises them separately
            if v < tps[T - 1] + 10:
                return pts[T - 1] + (pts[T] - pts[T - 1]) / 2
            return pts[T] if v == tps[T - 1] + 10 else pts[T] + pd.Timedelta(1, 'h') * (v - tps[T - 1] - 10)
        starts = [real_time(int(v)) for v in P['o_start']]
        ends = [real_time(int(v)) for v in P['o_end']]
        orders = {'start': np.array(starts, dtype=object), 'end': np.array(ends, dtype=object),
                  'capa': np.array([float(x) for x in P['o_capa']]), 'price': np.array([float(x) for x in P['o_price']])}
        a = eao.assets.OrderBook(name='asset_name', nodes=eao.assets.Node('node0'), wacc=float(P['wacc']), orders=orders,
                                 full_exec=case['full'])
        if case['tg'] == 'same':
            a.set_timegrid(tg)
            _pts = list(tg.timepoints) + [tg.end]
            _other = eao.assets.SimpleContract(name='other asset', nodes=eao.assets.Node('elsewhere'), start=_pts[min(1, len(_pts) - 1)], end=_pts[-1], wacc=0.37)
            _other.set_timegrid(tg)      # overwrites the shared grid's restricted part and discount factors
            call = lambda: a.setup_optim_problem(None, tg, case['costs_only'])
        elif case['tg'] == 'preset':
            a.set_timegrid(tg)
            _pts = list(tg.timepoints) + [tg.end]
            _other = eao.assets.SimpleContract(name='other asset', nodes=eao.assets.Node('elsewhere'), start=_pts[min(1, len(_pts) - 1)], end=_pts[-1], wacc=0.37)
            _other.set_timegrid(tg)      # overwrites the shared grid's restricted part and discount factors
            call = lambda: a.setup_optim_problem(None, None, case['costs_only'])
        else:
            call = lambda: a.setup_optim_problem(None, tg, case['costs_only'])
        tg2, _ = N.synthetic_grid(T, P['g_dt'])
        dt = [float(x) for x in tg2.dt]
        Dt = np.cumsum(dt)
        dff = [(1.0 + float(P['wacc'])) ** (-(Dt[k] / 24.0) / 365.0) for k in range(T)]
        tpv = [int(pd.Timestamp(x).value) for x in tg2.timepoints]
        R = Obj('Timegrid', T=n, dt=S.from_numpy(dt), I=S.from_numpy(list(range(T))), discount_factors=S.from_numpy(dff),
                timepoints=tpv)
        sv = [int(pd.Timestamp(x).value) for x in starts]
        evv = [int(pd.Timestamp(x).value) for x in ends]
        ctx = dict(R=R, g=Obj('Timegrid', T=T), self_obj=Obj('OrderBook', name='asset_name', nodes=[Obj('Node', name='node0')]),
                   nO=nO, sf=lambda o: sv[int(o)], ef=lambda o: evv[int(o)], cf=P.fun('o_capa'), pf=P.fun('o_price'),
                   synthetic=synthetic)
        return call, ctx
