"""Contracts for eaopack.assets: SimpleContract.setup_optim_problem  (C02, C07, C08, C10, C12, C17).

LP_SimpleContract, written from the property statement and the parameter documentation
("min_cap: minimum flow/capacity for buying (negative), max_cap: maximum ... selling (positive),
extra_costs added to price vector (in or out)", C02: "per-step volume limit = rate x step length,
cash flows discounted"):

  reference model, per step i of the asset's window:   lo_i <= x_i <= hi_i,
       lo_i = min_cap_i * dt_i,  hi_i = max_cap_i * dt_i,
       cost_i(x) = (p_i * x + ec_i * |x|) * df_i.

The LP returned is formulation A (one variable per step) or formulation B (x = x_in + x_out,
x_in <= 0 <= x_out).  A is only admissible where |x| is linear on [lo_i, hi_i]; the contract
states exactly that, so a refactoring that switches between A and B where both are exact keeps
verifying, and a change of any coefficient does not.
"""
import z3

from pyvc import sym, spec as S
from pyvc.sym import Arr, Obj, DF, Havoc, lift
from .common import (Contract, register, mk_root_grid, mk_restricted, disc_fun, set_timegrid_handler, mk_node,
                     OptimProblemInit)


class PV:
    """token for a parameter that make_vector turns into a vector (scalar | price key | interval dict)"""

    def __init__(self, name, fn):
        self.name, self.fn = name, fn


def make_vector_handler(ctx):
    """Callee contract of Asset.make_vector(value, prices, default_value=None, convert=False):
    requires self.timegrid.restricted well formed;
    ensures  value is None -> None;  otherwise a vector of length restricted.T whose i-th entry is the
    parameter's value at restricted step i (times restricted.dt[i] if convert).  Which value that is
    for a scalar / price key / interval dictionary is C02.make_vector, proved on make_vector itself."""
    def h(I, self_obj, args, kwargs):
        value = args[0]
        convert = kwargs.get('convert', args[3] if len(args) > 3 else False)
        if value is None:
            return None
        if not isinstance(value, PV):
            raise sym.Unsupported('make_vector on a non-parameter value')
        R = self_obj.get('timegrid').get('restricted')
        n = R.get('T')
        dt = R.get('dt')
        if convert:
            return Arr(n, lambda i: value.fn(lift(i)) * dt.f(i))
        return Arr(n, lambda i: value.fn(lift(i)))
    return h


def mapping_rows(I, df, name):
    """helper: list the obligations that a mapping DataFrame has exactly the columns `spec` row-wise"""
    return df


@register
class SimpleContractSetup(Contract):
    qualname = 'assets:SimpleContract.setup_optim_problem'
    prefix = 'C02.contract'
    properties = ('C02', 'C07', 'C08', 'C10', 'C12', 'C17')

    def cases(self):
        out = []
        for price in (None, 'p'):
            for costs_only in (False, True):
                for tg in ('given', 'preset', 'same'):
                    out.append(dict(price=price, costs_only=costs_only, tg=tg))
        return out

    def harness(self, H, case):
        g = mk_root_grid(H)
        df = disc_fun(H)
        R = mk_restricted(H, g, df=df)
        node = mk_node(H, 'node0')
        mc, xc, ec = (H.fun(nm, z3.IntSort(), z3.RealSort()) for nm in ('min_cap', 'max_cap', 'extra_costs'))
        self_obj = Obj('SimpleContract', name=H.str('asset_name'), nodes=[node], wacc=H.real('wacc'), start=None, end=None,
                       freq=None, profile=None, price=case['price'], min_cap=PV('min_cap', mc), max_cap=PV('max_cap', xc),
                       extra_costs=PV('extra_costs', ec), periodicity=None, periodicity_duration=None)
        Tp = H.int('len_price')
        prices = {'p': H.real_arr('price', Tp), 'other': H.real_arr('other_price', g.get('T'))}
        ctx = dict(g=g, R=R, df=df, self_obj=self_obj, prices=prices, Tp=Tp, mc=mc, xc=xc, ec=ec)
        if case['tg'] == 'preset':
            # the grid was set before (set_timegrid) and is NOT passed again; meanwhile ANOTHER asset sharing the grid object has
            # overwritten its derived cache (other window, other wacc): the set-up derives the asset's own part anew (C10; defect D42 of
            # the pinned tree: the stale cache was used)
            self_obj.set('timegrid', g)
            pdf = disc_fun(H, 'stale')
            g.set('restricted', mk_restricted(H, g, pfx='stale', df=pdf))
            g.set('discount_factors', Arr(g.get('T'), lambda k: pdf(lift(k))))
            tg_arg = None
        elif case['tg'] == 'same':
            # the asset already holds this very grid object, whose derived cache was overwritten by ANOTHER asset since
            # (other window, other wacc): the set-up has to rebuild it all the same (C10 / C20: no short cut on identity)
            self_obj.set('timegrid', g)
            sdf = disc_fun(H, 'stale')
            g.set('restricted', mk_restricted(H, g, pfx='stale', df=sdf))
            g.set('discount_factors', Arr(g.get('T'), lambda k: sdf(lift(k))))
            tg_arg = g
        else:
            # derived cache holds arbitrary left-overs of earlier calls (C10.functional)
            g.set('restricted', Havoc('stale cache: restricted grid of an earlier set-up'))
            g.set('discount_factors', Havoc('stale cache: discount factors of an earlier set-up'))
            tg_arg = g
        ctx['args'] = [prices, tg_arg, case['costs_only']]
        H.protect[id(prices)] = 'prices'
        H.protect[id(prices['p'])] = 'prices[p]'
        return ctx

    def callees(self, case, ctx=None):
        return {'assets:Asset.set_timegrid': set_timegrid_handler(ctx),
                'assets:Asset.make_vector': make_vector_handler(ctx),
                'optimization:OptimProblem': OptimProblemInit()}

    # ---- the reference quantities (polymorphic: z3 terms or Python numbers)
    def ref(self, case, ctx):
        R, g = ctx['R'], ctx['g']
        n = R.get('T')
        dt, dfR, rI = R.get('dt'), R.get('discount_factors'), R.get('I')
        lo = lambda i: ctx['mc'](i) * dt.f(i)
        hi = lambda i: ctx['xc'](i) * dt.f(i)
        ec = lambda i: ctx['ec'](i)
        if case['price'] is None:
            p = lambda i: 0.0
        else:
            pr = ctx['prices']['p']
            p = lambda i: pr.f(rI.f(i))
        d = lambda i: dfR.f(i)
        return n, lo, hi, ec, p, d

    def post(self, H, case, outcome, I, ctx):
        n, lo, hi, ec, p, d = self.ref(case, ctx)
        g = ctx['g']
        T = g.get('T')
        if outcome[0] == 'raise':
            # documented failure modes: wrong price length; some min_cap > max_cap
            bad_len = S.not_(S.eq(ctx['Tp'], T)) if case['price'] is not None else False
            ill = S.exists(n, lambda k: S.gt(lo(k), hi(k)))
            yield ('C08.contract.no_spurious_raise', S.or_(bad_len, ill))
            return
        if outcome[0] == 'havoc':
            yield ('C02.contract.modelled', Havoc(outcome[1]))
            return
        res = outcome[1]
        if case['costs_only']:
            c = res
            l = u = None
        else:
            c, l, u = res.get('c'), res.get('l'), res.get('u')
        if isinstance(c, Havoc):
            yield ('C02.contract.cost', c)
            return
        nv = c.n
        one = S.eq(nv, n)
        two = S.and_(S.eq(nv, 2 * n), S.gt(n, 0))
        yield ('C07.contract.lengths', S.or_(one, two) if l is None else S.and_(S.or_(one, two), S.eq(l.n, nv), S.eq(u.n, nv)))
        # formulation A: exact only where |x| is linear on [lo, hi]
        A_cost = lambda i: S.or_(S.and_(S.eq(ec(i), 0), S.eq(c.f(i), p(i) * d(i))),
                                 S.and_(S.ge(lo(i), 0), S.eq(c.f(i), (p(i) + ec(i)) * d(i))),
                                 S.and_(S.le(hi(i), 0), S.eq(c.f(i), (p(i) - ec(i)) * d(i))),
                                 S.and_(S.eq(lo(i), 0), S.eq(hi(i), 0)))
        pfx = 'C17.costs_only.contract.equals_full_cost' if case['costs_only'] else 'C02.contract.cost'
        yield (pfx + '/one_var', S.implies(one, lambda: S.forall(n, A_cost)))
        yield (pfx + '/two_var', S.implies(two, lambda: S.forall(n, lambda i: S.and_(
            S.eq(c.f(i), (p(i) - ec(i)) * d(i)), S.eq(c.f(n + i), (p(i) + ec(i)) * d(i))))))
        if case['costs_only']:
            return
        yield ('C02.contract.bounds/one_var', S.implies(one, lambda: S.forall(n, lambda i: S.and_(S.eq(l.f(i), lo(i)), S.eq(u.f(i), hi(i))))))
        mn = lambda x: S.min_(x, 0)
        mx = lambda x: S.max_(x, 0)
        yield ('C02.contract.bounds/two_var', S.implies(two, lambda: S.forall(n, lambda i: S.and_(
            S.eq(l.f(i), mn(lo(i))), S.eq(u.f(i), mn(hi(i))), S.eq(l.f(n + i), mx(lo(i))), S.eq(u.f(n + i), mx(hi(i)))))))
        yield ('C07.contract.l_le_u', S.forall(nv, lambda i: S.le(l.f(i), u.f(i))))
        yield ('C07.contract.no_rows', res.get('A') is None and res.get('b') is None and res.get('cType') is None)
        # mapping: one row per variable, in variable order
        m = res.get('mapping')
        if isinstance(m, Havoc) or not isinstance(m, DF):
            yield ('C07.contract.mapping', m if isinstance(m, Havoc) else Havoc('mapping not a frame'))
            return
        rI = ctx['R'].get('I')
        self_obj = ctx['self_obj']
        col = lambda name: m.cols[name]
        yield ('C07.contract.mapping.rows', S.eq(m.n, nv))
        yield ('C07.contract.mapping.index', S.forall(nv, lambda j: S.eq(m.index.f(j), j)))
        yield ('C07.contract.mapping.step', S.forall(nv, lambda j: S.eq(col('time_step').f(j), S.ite(S.lt(j, n), lambda: rI.f(j), lambda: rI.f(j - n)))))
        yield ('C08.contract.window', S.forall(nv, lambda j: S.and_(S.ge(col('time_step').f(j), 0), S.lt(col('time_step').f(j), T))))
        yield ('C07.contract.mapping.asset', S.forall(nv, lambda j: S.eq(col('asset').f(j), self_obj.get('name'))))
        yield ('C01.nodes.contract', S.forall(nv, lambda j: S.eq(col('node').f(j), self_obj.get('nodes')[0].get('name'))))
        yield ('C07.contract.mapping.type', S.forall(nv, lambda j: S.eq(col('type').f(j), 'd')))
        vn = col('var_name')
        yield ('C07.contract.mapping.var_name', S.forall(nv, lambda j: S.and_(
            S.implies(one, S.eq(vn.f(j), 'disp')),
            S.implies(S.and_(two, S.lt(j, n)), S.eq(vn.f(j), 'disp_in')),
            S.implies(S.and_(two, S.ge(j, n)), S.eq(vn.f(j), 'disp_out')))))
        yield ('C07.contract.mapping.columns', set(m.cols) == {'time_step', 'var_name', 'asset', 'node', 'type'})
        yield ('C13.contract.periodic_args', res.get('periodic_period_length') is None if H is not None else True)

    # ---- run-time twin / replay
    def schema(self, case):
        return [('g_T', 'int', None), ('r_n', 'int', None), ('len_price', 'int', None), ('wacc', 'real', None),
                ('g_dt', 'real_fun', 'g_T'), ('g_df', 'real_fun', 'g_T'), ('r_I', 'int_fun', 'r_n'),
                ('min_cap', 'real_fun', 'r_n'), ('max_cap', 'real_fun', 'r_n'), ('extra_costs', 'real_fun', 'r_n'),
                ('price', 'real_fun', 'len_price')]

    size_syms = ('g_T', 'r_n', 'len_price')

    def menu(self, case, H, ctx):
        """extra constraints tried first when searching a counterexample, so that the model is realisable
        with real objects: contiguous window, wacc = 0 (discount factors 1)"""
        rI = ctx['R'].get('__fun__')['I']
        k = z3.Int('menu!k')
        return [z3.ForAll([k], z3.Implies(z3.And(k >= 0, k < ctx['R'].get('T')), rI(k) == rI(0) + k)), ctx['g'].get('T') >= 1], [
                H.real('wacc') == 0, z3.ForAll([k], ctx['df'](k) == 1), z3.ForAll([k], ctx['g'].get('__fun__')['dt'](k) == 1)]

    def native(self, case, P):
        import numpy as np
        import eaopack as eao
        from pyvc import native as N
        T, n = int(P['g_T']), int(P['r_n'])
        P = N.realisable_wacc(P)
        tg, synthetic = N.synthetic_grid(T, P['g_dt'])
        rI = [int(x) for x in P['r_I']]
        if rI != list(range(rI[0], rI[0] + n)) if n else False:
            raise N.NotRealisable('window not contiguous')
        a0 = rI[0] if n else T
        pts = list(tg.timepoints) + [tg.end]
        start, end = (pts[a0], pts[a0 + n]) if n else (tg.end, tg.end)
        full = lambda name: np.array([P.fun(name)(rI.index(k)) if k in rI else 0.0 for k in range(T)], dtype=float)
        prices = {'min_cap_s': full('min_cap'), 'max_cap_s': full('max_cap'), 'ec_s': full('extra_costs'),
                  'p': np.array([P.fun('price')(k) for k in range(int(P['len_price']))], dtype=float)}
        node = eao.assets.Node('node0')
        a = eao.assets.SimpleContract(name='asset_name', nodes=node, start=start, end=end, wacc=float(P['wacc']),
                                      price=case['price'], min_cap='min_cap_s', max_cap='max_cap_s', extra_costs='ec_s')
        if case['tg'] == 'same':
            a.set_timegrid(tg)
            _pts = list(tg.timepoints) + [tg.end]
            _other = eao.assets.SimpleContract(name='other asset', nodes=eao.assets.Node('elsewhere'), start=_pts[min(1, len(_pts) - 1)], end=_pts[-1], wacc=0.37)
            _other.set_timegrid(tg)      # overwrites the shared grid's restricted part and discount factors
            call = lambda: a.setup_optim_problem(prices, tg, case['costs_only'])
        elif case['tg'] == 'preset':
            a.set_timegrid(tg)
            _pts = list(tg.timepoints) + [tg.end]
            _other = eao.assets.SimpleContract(name='other asset', nodes=eao.assets.Node('elsewhere'), start=_pts[min(1, len(_pts) - 1)], end=_pts[-1], wacc=0.37)
            _other.set_timegrid(tg)      # overwrites the shared grid's restricted part and discount factors
            call = lambda: a.setup_optim_problem(prices, None, case['costs_only'])
        else:
            call = lambda: a.setup_optim_problem(prices, tg, case['costs_only'])
        # native ctx mirrors the symbolic one, computed independently of the code under test
        tg2, _ = N.synthetic_grid(T, P['g_dt'])
        dt = [float(x) for x in tg2.dt]
        Dt = np.cumsum(dt)
        dff = [(1.0 + float(P['wacc'])) ** (-(Dt[k] / 24.0) / 365.0) for k in range(T)]
        R = Obj('Timegrid', T=n, dt=S.from_numpy([dt[k] for k in rI]), I=S.from_numpy(rI),
                discount_factors=S.from_numpy([dff[k] for k in rI]))
        g = Obj('Timegrid', T=T)
        so = Obj('SimpleContract', name='asset_name', nodes=[Obj('Node', name='node0')])
        ctx = dict(R=R, g=g, self_obj=so, prices={'p': S.from_numpy(prices['p'])}, Tp=int(P['len_price']),
                   mc=P.fun('min_cap'), xc=P.fun('max_cap'), ec=P.fun('extra_costs'), synthetic=synthetic)
        return call, ctx
